use vstd::prelude::*;
use vstd::std_specs::iter::IteratorSpec;
verus! {
pub enum Rec { Class, Method { lm: bool }, Field, Other }
pub struct PErr;
pub open spec fn is_member(r: Result<Rec, PErr>) -> bool { r is Ok && (r->Ok_0 is Field || r->Ok_0 is Method) }
pub struct ProguardMapping<'s> { pub source: &'s [u8] }
pub struct ProguardRecordIter<'s> { pub slice: &'s [u8] }

pub uninterp spec fn r_of(b: Seq<u8>) -> Result<Rec, PErr>;
pub uninterp spec fn rest_of(b: Seq<u8>) -> Seq<u8>;
pub open spec fn progress() -> bool { forall|b: Seq<u8>| b.len() > 0 ==> #[trigger] rest_of(b).len() < b.len() }

pub open spec fn records(b: Seq<u8>) -> Seq<Result<Rec, PErr>>
    decreases b.len()
{
    if b.len() == 0 || !(rest_of(b).len() < b.len()) { Seq::empty() } else { seq![r_of(b)] + records(rest_of(b)) }
}

#[verifier::external_body]
fn parse_proguard_record(bytes: &[u8]) -> (r: (Result<Rec, PErr>, &[u8]))
    requires bytes@.len() > 0,
    ensures r.0 == r_of(bytes@), r.1@ == rest_of(bytes@), rest_of(bytes@).len() < bytes@.len(),
{ unimplemented!() }

impl<'s> vstd::std_specs::iter::IteratorSpecImpl for ProguardRecordIter<'s> {
    open spec fn obeys_prophetic_iter_laws(&self) -> bool { true }
    open spec fn remaining(&self) -> Seq<Result<Rec, PErr>> { records(self.slice@) }
    open spec fn will_return_none(&self) -> bool { true }
    open spec fn decrease(&self) -> Option<nat> { Some(self.slice@.len()) }
    open spec fn peek(&self, i: int) -> Option<Result<Rec, PErr>> { if 0 <= i < records(self.slice@).len() { Some(records(self.slice@)[i]) } else { None } }
}

impl<'s> Iterator for ProguardRecordIter<'s> {
    type Item = Result<Rec, PErr>;
    fn next(&mut self) -> Option<Self::Item> {
        if self.slice.is_empty() {
            return None;
        }

        let (result, slice) = parse_proguard_record(self.slice);
        self.slice = slice;
        Some(result)
    }
}

impl<'s> ProguardMapping<'s> {
    pub fn iter(&self) -> (r: ProguardRecordIter<'s>) ensures r.slice@ == self.source@ {
        ProguardRecordIter { slice: self.source }
    }

    pub fn is_valid(&self) -> (ret: bool)
        ensures ret == exists|i: int, j: int| 0 <= i < j < 50 && j < records(self.source@).len()
            && records(self.source@)[i] == Ok::<Rec, PErr>(Rec::Class) && is_member(records(self.source@)[j]),
    {
        // In order to not parse the whole file, we look for a class followed by
        // a member in the first 50 lines, which is a good heuristic.
        let mut has_class_line = false;
        for record in self.iter().take(50) {
            match record {
                Ok(Rec::Class { .. }) => {
                    has_class_line = true;
                }
                Ok(Rec::Field { .. })
                    if has_class_line =>
                {
                    return true;
                }
                Ok(Rec::Method { .. })
                    if has_class_line =>
                {
                    return true;
                }
                _ => {}
            }
        }
        false
    }

    pub fn has_line_info(&self) -> (ret: bool)
        ensures ret == exists|i: int| 0 <= i < records(self.source@).len() && records(self.source@)[i] == Ok::<Rec, PErr>(Rec::Method { lm: true }),
    {
        for record in it: self.iter()
            invariant
                it.seq() == records(self.source@),
                forall|i: int| 0 <= i < it.index@ ==> records(self.source@)[i] != Ok::<Rec, PErr>(Rec::Method { lm: true }),
        {
            if let Ok(Rec::Method { lm }) = record {
                if lm {
                    return true;
                }
            }
        }
        false
    }
}
}
fn main(){}
