use vstd::prelude::*;
verus! {
pub struct Throwable<'s> { pub class: &'s str, pub message: Option<&'s str> }
pub struct StackFrame<'s> { pub class: &'s str, pub line: usize }
pub struct StackTrace<'s> {
    pub exception: Option<Throwable<'s>>,
    pub frames: Vec<StackFrame<'s>>,
    pub cause: Option<Box<StackTrace<'s>>>,
}
pub struct M { pub x: u32 }
pub uninterp spec fn known(m: &M, c: Seq<char>) -> bool;
impl M {
    #[verifier::external_body]
    pub fn remap_throwable<'a>(&'a self, throwable: &Throwable<'a>) -> (r: Option<Throwable<'a>>)
        ensures r is Some <==> known(self, throwable.class@),
    { unimplemented!() }

    pub fn region_exception<'a>(&'a self, trace: &StackTrace<'a>) -> (exception: Option<Throwable<'a>>)
        ensures exception is Some <==> trace.exception is Some,
    {
        let exception = trace
            .exception
            .as_ref()
            .and_then(|t| self.remap_throwable(t));
        exception
    }
}
}
fn main(){}
