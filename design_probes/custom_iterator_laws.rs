use vstd::prelude::*;
use vstd::std_specs::iter::IteratorSpec;
verus! {
pub struct It<'s> { pub slice: &'s [u8] }

impl<'s> vstd::std_specs::iter::IteratorSpecImpl for It<'s> {
    open spec fn obeys_prophetic_iter_laws(&self) -> bool { true }
    open spec fn remaining(&self) -> Seq<u8> { self.slice@ }
    open spec fn will_return_none(&self) -> bool { true }
    open spec fn decrease(&self) -> Option<nat> { Some(self.slice@.len()) }
}

impl<'s> Iterator for It<'s> {
    type Item = u8;
    fn next(&mut self) -> (r: Option<u8>)
        ensures
            old(self).slice@.len() == 0 ==> r is None && final(self).slice@ == old(self).slice@,
            old(self).slice@.len() > 0 ==> r == Some(old(self).slice@[0]) && final(self).slice@ == old(self).slice@.subrange(1, old(self).slice@.len() as int),
    {
        if self.slice.is_empty() {
            return None;
        }
        let b = self.slice[0];
        self.slice = &self.slice[1..];
        Some(b)
    }
}

fn count(it: It<'_>) -> (n: usize) {
    let mut it = it;
    let mut n = 0usize;
    loop
        invariant n + it.slice@.len() <= usize::MAX,
        decreases it.slice@.len(),
    {
        let Some(_b) = it.next() else { break; };
        n += 1;
    }
    n
}
}
fn main(){}
