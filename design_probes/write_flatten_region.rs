#![feature(allocator_api)]
use vstd::prelude::*;
use vstd::std_specs::iter::IteratorSpec;
use std::collections::{BTreeMap, HashSet};
use std::io::Write;
verus! {

#[verifier::external_type_specification]
#[verifier::external_body]
pub struct ExIoError(std::io::Error);

#[verifier::external_trait_specification]
#[verifier::external_trait_extension(WriteSpec via WriteSpecImpl)]
pub trait ExWrite {
    type ExternalTraitSpecificationFor: std::io::Write;
    spec fn sunk(&self) -> Seq<u8>;
    fn write(&mut self, buf: &[u8]) -> (r: std::io::Result<usize>)
        ensures match r {
            Ok(n) => n <= buf@.len() && final(self).sunk() == old(self).sunk() + buf@.subrange(0, n as int),
            Err(_) => final(self).sunk() == old(self).sunk(),
        };
    fn flush(&mut self) -> std::io::Result<()>;
    fn write_all(&mut self, buf: &[u8]) -> (r: std::io::Result<()>)
        ensures match r {
            Ok(_) => final(self).sunk() == old(self).sunk() + buf@,
            Err(_) => exists|n: int| 0 <= n <= buf@.len() && final(self).sunk() == old(self).sunk() + buf@.subrange(0, n),
        };
}

#[derive(Clone)]
pub struct Class {
    pub obfuscated_name_offset: u32,
    pub original_name_offset: u32,
    pub file_name_offset: u32,
    pub members_offset: u32,
    pub members_len: u32,
    pub members_by_params_offset: u32,
    pub members_by_params_len: u32,
}
#[derive(Clone)]
pub struct Member { pub obfuscated_name_offset: u32, pub startline: u32 }

pub struct ClassInProgress<'data> {
    pub name: &'data str,
    pub class: Class,
    pub members: BTreeMap<&'data str, Vec<Member>>,
    pub members_by_params: BTreeMap<(&'data str, &'data str), Vec<Member>>,
}

#[verifier::external_type_specification]
#[verifier::external_body]
#[verifier::reject_recursive_types(K)]
#[verifier::reject_recursive_types(V)]
#[verifier::reject_recursive_types(A)]
pub struct ExIntoValues<K, V, A: std::alloc::Allocator + Clone>(std::collections::btree_map::IntoValues<K, V, A>);

pub uninterp spec fn vals<K, V>(m: BTreeMap<K, V>) -> Seq<V>;
pub uninterp spec fn flat<T>(s: Seq<Vec<T>>) -> Seq<T>;
pub uninterp spec fn class_bytes(c: Class) -> Seq<u8>;

#[verifier::external_body]
fn shim_into_values<K, V>(m: BTreeMap<K, V>) -> (r: std::collections::btree_map::IntoValues<K, V>)
    ensures r.obeys_prophetic_iter_laws(), r.decrease() is Some, r.remaining() == vals(m),
{ m.into_values() }

#[verifier::external_body]
fn shim_extend_flatten<K>(dst: &mut Vec<Member>, m: BTreeMap<K, Vec<Member>>)
    ensures final(dst)@ == old(dst)@ + flat(vals(m)),
{ dst.extend(m.into_values().flat_map(|m| m.into_iter())) }

#[verifier::external_body]
fn shim_class_as_bytes(c: &Class) -> (r: &[u8]) ensures r@ == class_bytes(*c) { unimplemented!() }

pub open spec fn wf_cip(c: ClassInProgress) -> bool {
    c.class.members_len == flat(vals(c.members)).len() && c.class.members_by_params_len == flat(vals(c.members_by_params)).len()
}

// what the emitted class record must look like, given the section lengths at the time it is emitted
pub open spec fn emitted_ok(c_in: ClassInProgress, emitted: Class, n_members: int, n_by_params: int) -> bool {
    emitted.members_offset == n_members && emitted.members_by_params_offset == n_by_params
    && emitted.members_len == c_in.class.members_len && emitted.members_by_params_len == c_in.class.members_by_params_len
}

fn region_flatten<'d, W: Write>(classes: BTreeMap<&'d str, ClassInProgress<'d>>, writer: &mut W) -> (ret: std::io::Result<(Vec<Member>, Vec<Member>)>)
    requires forall|i: int| 0 <= i < vals(classes).len() ==> wf_cip(#[trigger] vals(classes)[i]),
{
        let mut members = Vec::new();
        let mut members_by_params = Vec::new();

        let mut it = shim_into_values(classes);
        let ghost all = it.remaining();
        let ghost mut n: int = 0;
        proof { assert(all.skip(0) == all); }
        loop
            invariant it.obeys_prophetic_iter_laws(), it.decrease() is Some,
                0 <= n <= all.len(), all.skip(n) == it.remaining(),
                forall|i: int| 0 <= i < all.len() ==> wf_cip(#[trigger] all[i]),
            decreases it.decrease()->0,
        {
            let Some(mut c) = it.next() else { break; };
            proof { assert(c == all[n]); assert(all.skip(n).drop_first() == all.skip(n + 1)); n = n + 1; }
            let ghost c_in = c;
            let ghost nm = members@.len();
            let ghost nb = members_by_params@.len();
            assume(nm <= u32::MAX && nb <= u32::MAX);
            // We can now set the class's members_offset/members_by_params_offset.
            c.class.members_offset = members.len() as u32;
            c.class.members_by_params_offset = members.len() as u32;
            shim_extend_flatten(&mut members, c.members);
            shim_extend_flatten(&mut members_by_params, c.members_by_params);
            assert(emitted_ok(c_in, c.class, nm as int, nb as int));   // obligation: offsets tile their own sections
            writer.write_all(shim_class_as_bytes(&c.class))?;
        }
        Ok((members, members_by_params))
}
}
fn main(){}
