use vstd::prelude::*;
use std::io::{Result, Write};
verus! {

#[verifier::external_type_specification]
#[verifier::external_body]
pub struct ExIoError(std::io::Error);

#[verifier::external_trait_specification]
#[verifier::external_trait_extension(WriteSpec via WriteSpecImpl)]
pub trait ExWrite {
    type ExternalTraitSpecificationFor: std::io::Write;

    spec fn sunk(&self) -> Seq<u8>;

    fn write(&mut self, buf: &[u8]) -> (r: Result<usize>)
        ensures match r {
            Ok(n) => n <= buf@.len() && final(self).sunk() == old(self).sunk() + buf@.subrange(0, n as int),
            Err(_) => final(self).sunk() == old(self).sunk(),
        };

    fn flush(&mut self) -> Result<()>;
}

pub struct Writer<W: Write> {
    inner: W,
    pos: usize,
}

impl<W: Write> Writer<W> {
    pub fn new(writer: W) -> Self {
        Self {
            inner: writer,
            pos: 0,
        }
    }

    fn write(&mut self, buf: &[u8]) -> Result<usize> {
        let written = self.inner.write(buf)?;
        self.pos += written;

        Ok(written)
    }
}
}
fn main(){}
