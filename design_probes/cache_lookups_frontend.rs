use vstd::prelude::*;
use vstd::std_specs::iter::IteratorSpec;
use std::cmp::Ordering;
verus! {
pub struct Class {
    pub obfuscated_name_offset: u32,
    pub original_name_offset: u32,
    pub members_offset: u32,
    pub members_len: u32,
}
pub struct Member { pub obfuscated_name_offset: u32, pub params_offset: u32 }
pub struct ReadStringError;
pub struct ProguardCache<'data> {
    pub classes: &'data [Class],
    pub members: &'data [Member],
    pub string_bytes: &'data [u8],
}
#[verifier::allow(undeclared_external_trait)]
pub assume_specification<'a, T, F> [<[T]>::binary_search_by] (s: &'a [T], f: F) -> (r: std::result::Result<usize, usize>)
    where F: std::ops::FnMut(&'a T,) -> std::cmp::Ordering,
    requires forall|i: int| 0 <= i < s@.len() ==> #[trigger] call_requires(f, (&s@[i],)),
    ensures match r { Ok(i) => i < s@.len(), Err(i) => i <= s@.len() };

#[verifier::allow(undeclared_external_trait)]
pub assume_specification<T, E> [std::result::Result::<T, E>::unwrap_or_default] (r: std::result::Result<T, E>) -> (o: T)
    where E: std::marker::Destruct, T: std::default::Default + std::marker::Destruct,
    ensures r is Ok ==> o == r->Ok_0;

impl<'data> ProguardCache<'data> {
    #[verifier::external_body]
    pub fn read_string(&self, offset: u32) -> (r: Result<&'data str, ReadStringError>) { unimplemented!() }

    fn get_class(&self, name: &str) -> Option<&Class> {
        let idx = self
            .classes
            .binary_search_by(|c| {
                let Ok(obfuscated) = self.read_string(c.obfuscated_name_offset) else {
                    return Ordering::Greater;
                };
                obfuscated.cmp(name)
            })
            .ok()?;

        self.classes.get(idx)
    }

    fn get_class_members(&self, class: &Class) -> Option<&'data [Member]> {
        let Class {
            members_offset,
            members_len,
            ..
        } = class;
        let start = *members_offset as usize;
        let end = start.checked_add(*members_len as usize)?;

        self.members.get(start..end)
    }

    fn cmp2(&self, m: &Member, method: &str, frame_params: &str) -> Ordering {
                let Ok(obfuscated_name) = self.read_string(m.obfuscated_name_offset) else {
                    return Ordering::Greater;
                };

                let params = self.read_string(m.params_offset).unwrap_or_default();

                (obfuscated_name, params).cmp(&(method, frame_params))
    }
}
}
fn main(){}
