use vstd::prelude::*;
verus! {

pub const PRGCACHE_MAGIC_BYTES: [u8; 4] = *b"PRGC";
#[verifier::external_body]
pub const PRGCACHE_MAGIC: u32 = u32::from_le_bytes(PRGCACHE_MAGIC_BYTES);
#[verifier::external_body]
pub const PRGCACHE_MAGIC_FLIPPED: u32 = PRGCACHE_MAGIC.swap_bytes();
pub const PRGCACHE_VERSION: u32 = 1;

#[repr(C)]
pub struct Header {
    pub magic: u32,
    pub version: u32,
    pub num_classes: u32,
    pub num_members: u32,
    pub num_members_by_params: u32,
    pub string_bytes: u32,
}
#[repr(C)]
pub struct Class {
    pub obfuscated_name_offset: u32,
    pub original_name_offset: u32,
    pub file_name_offset: u32,
    pub members_offset: u32,
    pub members_len: u32,
    pub members_by_params_offset: u32,
    pub members_by_params_len: u32,
}
#[repr(C)]
pub struct Member {
    pub obfuscated_name_offset: u32,
    pub startline: u32,
}

#[derive(Clone, Copy, PartialEq, Eq)]
pub enum CacheErrorKind {
    WrongEndianness,
    WrongFormat,
    WrongVersion,
    InvalidHeader,
    InvalidClasses,
    InvalidMembers,
    UnexpectedStringBytes {
        expected: usize,
        found: usize,
    },
}

pub struct CacheError {
    pub kind: CacheErrorKind,
}

impl From<CacheErrorKind> for CacheError {
    fn from(kind: CacheErrorKind) -> Self {
        Self { kind }
    }
}

pub struct ProguardCache<'data> {
    pub header: &'data Header,
    pub classes: &'data [Class],
    pub members: &'data [Member],
    pub members_by_params: &'data [Member],
    pub string_bytes: &'data [u8],
}

mod watto {
    use super::*;
    #[verifier::external_body]
    pub fn align_to(bytes: &[u8], align: usize) -> Option<(&[u8], &[u8])> { unimplemented!() }
}
#[verifier::external_body]
fn shim_header_ref_from_prefix(bytes: &[u8]) -> Option<(&Header, &[u8])> { unimplemented!() }
#[verifier::external_body]
fn shim_class_slice_from_prefix(bytes: &[u8], n: usize) -> Option<(&[Class], &[u8])> { unimplemented!() }
#[verifier::external_body]
fn shim_member_slice_from_prefix(bytes: &[u8], n: usize) -> Option<(&[Member], &[u8])> { unimplemented!() }

impl<'data> ProguardCache<'data> {
    pub fn parse(buf: &'data [u8]) -> Result<Self, CacheError> {
        let (header, rest) = shim_header_ref_from_prefix(buf).ok_or(CacheErrorKind::InvalidHeader)?;
        if header.magic == PRGCACHE_MAGIC_FLIPPED {
            return Err(CacheErrorKind::WrongEndianness.into());
        }
        if header.magic != PRGCACHE_MAGIC {
            return Err(CacheErrorKind::WrongFormat.into());
        }
        if header.version != PRGCACHE_VERSION {
            return Err(CacheErrorKind::WrongVersion.into());
        }

        let (_, rest) = watto::align_to(rest, 8).ok_or(CacheErrorKind::InvalidClasses)?;
        let (classes, rest) = shim_class_slice_from_prefix(rest, header.num_classes as usize)
            .ok_or(CacheErrorKind::InvalidClasses)?;

        let (_, rest) = watto::align_to(rest, 8).ok_or(CacheErrorKind::InvalidMembers)?;
        let (members, rest) = shim_member_slice_from_prefix(rest, header.num_members as usize)
            .ok_or(CacheErrorKind::InvalidMembers)?;

        let (_, rest) = watto::align_to(rest, 8).ok_or(CacheErrorKind::InvalidMembers)?;
        let (members_by_params, rest) =
            shim_member_slice_from_prefix(rest, header.num_members_by_params as usize)
                .ok_or(CacheErrorKind::InvalidMembers)?;

        let (_, string_bytes) =
            watto::align_to(rest, 8).ok_or(CacheErrorKind::UnexpectedStringBytes {
                expected: header.string_bytes as usize,
                found: 0,
            })?;

        if string_bytes.len() < header.string_bytes as usize {
            return Err(CacheErrorKind::UnexpectedStringBytes {
                expected: header.string_bytes as usize,
                found: string_bytes.len(),
            }
            .into());
        }

        Ok(Self {
            header,
            classes,
            members,
            members_by_params,
            string_bytes,
        })
    }
}
}
fn main(){}
