use vstd::prelude::*;
use vstd::std_specs::iter::IteratorSpec;
use std::str;
verus! {

#[verifier::external_type_specification]
#[verifier::external_body]
pub struct ExUtf8Error(std::str::Utf8Error);

pub uninterp spec fn valid_utf8(b: Seq<u8>) -> bool;
pub uninterp spec fn str_bytes(s: &str) -> Seq<u8>;

pub assume_specification<'a> [std::str::from_utf8] (v: &'a [u8]) -> (r: Result<&'a str, std::str::Utf8Error>)
    ensures match r { Ok(s) => valid_utf8(v@) && str_bytes(s) == v@, Err(_) => !valid_utf8(v@) };

#[verifier::external_body]
fn shim_strip_prefix<'a>(s: &'a [u8], prefix: &[u8]) -> (r: Option<&'a [u8]>)
    ensures match r { Some(t) => prefix@.len() <= s@.len() && s@.subrange(0, prefix@.len() as int) == prefix@ && t@ == s@.subrange(prefix@.len() as int, s@.len() as int),
                      None => !(prefix@.len() <= s@.len() && s@.subrange(0, prefix@.len() as int) == prefix@) }
{ s.strip_prefix(prefix) }

#[verifier::external_body]
fn shim_empty_u8<'a>() -> (r: &'a [u8]) ensures r@.len() == 0 { &[] as &[u8] }

#[verifier::external_body]
fn shim_slice_position<'a, T, P: FnMut(&'a T) -> bool>(s: &'a [T], p: P) -> (r: Option<usize>)
    requires forall|i: int| 0 <= i < s@.len() ==> #[trigger] call_requires(p, (&s@[i],)),
    ensures match r {
        Some(k) => k < s@.len() && call_ensures(p, (&s@[k as int],), true)
            && forall|j: int| 0 <= j < k ==> call_ensures(p, (& #[trigger] s@[j],), false),
        None => forall|j: int| 0 <= j < s@.len() ==> call_ensures(p, (& #[trigger] s@[j],), false),
    }
{ s.iter().position(p) }

#[derive(Copy, Clone)]
pub struct ParseError<'s> {
    pub line: &'s [u8],
    pub kind: ParseErrorKind,
}

#[derive(Copy, Clone)]
pub enum ParseErrorKind {
    Utf8Error(str::Utf8Error),
    ParseError(&'static str),
}

pub enum ProguardRecord<'s> {
    Class { original: &'s str, obfuscated: &'s str },
    Other,
}

pub open spec fn spec_is_newline(b: u8) -> bool { b == 13u8 || b == 10u8 }

// predicate `p` decides exactly the byte set `set`
pub open spec fn set_of<P: Fn(&u8) -> bool>(p: P) -> spec_fn(u8) -> bool { |b: u8| p.ensures((&b,), true) }
pub open spec fn total<P: Fn(&u8) -> bool>(p: P) -> bool {
    (forall|b: &u8| #[trigger] p.requires((b,)))
    && (forall|b: &u8, r: bool| #[trigger] p.ensures((b,), r) ==> r == p.ensures((b,), true))
}
// index of first byte in `set`, or len
pub open spec fn first_in(b: Seq<u8>, set: spec_fn(u8) -> bool) -> int
    decreases b.len()
{
    if b.len() == 0 || set(b[0]) { 0 } else { 1 + first_in(b.subrange(1, b.len() as int), set) }
}
proof fn lemma_first_in(b: Seq<u8>, set: spec_fn(u8) -> bool, k: int)
    requires 0 <= k <= b.len(), forall|j: int| 0 <= j < k ==> !set(#[trigger] b[j]), k < b.len() ==> set(b[k]),
    ensures first_in(b, set) == k,
    decreases b.len()
{
    if b.len() == 0 || set(b[0]) { } else {
        let t = b.subrange(1, b.len() as int);
        assert forall|j: int| 0 <= j < k - 1 implies !set(#[trigger] t[j]) by { assert(t[j] == b[j + 1]); }
        if k < b.len() { assert(t[k - 1] == b[k]); }
        lemma_first_in(t, set, k - 1);
    }
}

fn parse_prefix<'s>(bytes: &'s [u8], prefix: &'s [u8]) -> (ret: Result<&'s [u8], ParseError<'s>>)
    ensures match ret {
        Ok(rest) => prefix@.len() <= bytes@.len() && bytes@.subrange(0, prefix@.len() as int) == prefix@ && rest@ == bytes@.subrange(prefix@.len() as int, bytes@.len() as int),
        Err(_) => !(prefix@.len() <= bytes@.len() && bytes@.subrange(0, prefix@.len() as int) == prefix@),
    }
{
    shim_strip_prefix(bytes, prefix).ok_or(ParseError {
        line: bytes,
        kind: ParseErrorKind::ParseError("line is not a valid proguard record"),
    })
}

fn parse_until<P>(bytes: &[u8], predicate: P) -> (ret: Result<(&str, &[u8]), ParseError>)
where
    P: Fn(&u8) -> bool,
    requires total(predicate),
    ensures ({
        let k = first_in(bytes@, set_of(predicate));
        match ret {
            Ok((s, rest)) => valid_utf8(bytes@.subrange(0, k)) && str_bytes(s) == bytes@.subrange(0, k) && rest@ == bytes@.subrange(k, bytes@.len() as int),
            Err(_) => !valid_utf8(bytes@.subrange(0, k)),
        }
    }),
{
    let (slice, rest) = match shim_slice_position(bytes, predicate) {
        Some(pos) => bytes.split_at(pos),
        None => (bytes, shim_empty_u8()),
    };
    proof {
        let k = slice@.len() as int;
        let set = set_of(predicate);
        assert forall|j: int| 0 <= j < k implies !set(#[trigger] bytes@[j]) by {
            assert(call_ensures(predicate, (&bytes@[j],), false));
        }
        if k < bytes@.len() { assert(call_ensures(predicate, (&bytes@[k],), true)); assert(set(bytes@[k])); }
        lemma_first_in(bytes@, set, k);
        assert(slice@ =~= bytes@.subrange(0, k));
        assert(rest@ =~= bytes@.subrange(k, bytes@.len() as int));
    }

    match std::str::from_utf8(slice) {
        Ok(s) => Ok((s, rest)),
        Err(err) => Err(ParseError {
            line: slice,
            kind: ParseErrorKind::Utf8Error(err),
        }),
    }
}


pub open spec fn no_nl(b: Seq<u8>) -> bool { forall|j: int| 0 <= j < b.len() ==> !spec_is_newline(#[trigger] b[j]) }
pub open spec fn or_nl(set: spec_fn(u8) -> bool) -> spec_fn(u8) -> bool { |b: u8| spec_is_newline(b) || set(b) }

proof fn lemma_first_in_bounds(b: Seq<u8>, set: spec_fn(u8) -> bool)
    ensures 0 <= first_in(b, set) <= b.len(),
        forall|j: int| 0 <= j < first_in(b, set) ==> !set(#[trigger] b[j]),
        first_in(b, set) < b.len() ==> set(b[first_in(b, set)]),
    decreases b.len()
{
    if b.len() == 0 || set(b[0]) { } else {
        let t = b.subrange(1, b.len() as int);
        lemma_first_in_bounds(t, set);
        assert forall|j: int| 0 <= j < first_in(b, set) implies !set(#[trigger] b[j]) by {
            if j > 0 { assert(t[j - 1] == b[j]); }
        }
        if first_in(b, set) < b.len() { assert(t[first_in(t, set)] == b[first_in(b, set)]); }
    }
}

fn parse_until_no_newline<P>(bytes: &[u8], predicate: P) -> (ret: Result<(&str, &[u8]), ParseError>)
where
    P: Fn(&u8) -> bool,
    requires total(predicate),
    ensures ({
        let set = set_of(predicate);
        let k = first_in(bytes@, or_nl(set));
        match ret {
            Ok((s, rest)) => valid_utf8(bytes@.subrange(0, k)) && str_bytes(s) == bytes@.subrange(0, k) && rest@ == bytes@.subrange(k, bytes@.len() as int)
                && no_nl(str_bytes(s)) && (k < bytes@.len() ==> !spec_is_newline(bytes@[k]) && set(bytes@[k])),
            Err(_) => !valid_utf8(bytes@.subrange(0, k)) || (k < bytes@.len() && spec_is_newline(bytes@[k])),
        }
    }),
{
    proof { lemma_first_in_bounds(bytes@, or_nl(set_of(predicate))); }
    match parse_until(bytes, |byte: &u8| -> (r: bool) ensures r == (spec_is_newline(*byte) || predicate.ensures((byte,), true)) { is_newline(byte) || predicate(byte) }) {
        Ok((slice, bytes)) => {
            if !bytes.is_empty() && is_newline(&bytes[0]) {
                Err(ParseError {
                    line: slice.as_bytes(),
                    kind: ParseErrorKind::ParseError("line is not a valid proguard record"),
                })
            } else {
                Ok((slice, bytes))
            }
        }
        Err(err) => Err(err),
    }
}

fn is_newline(byte: &u8) -> (r: bool) ensures r == spec_is_newline(*byte) {
    *byte == b'\r' || *byte == b'\n'
}
}
fn main(){}
