#!/bin/sh
# Run once after a fresh restore, offline. Nothing to build: the framework is Python + the pre-installed verus / kani.
cd "$(dirname "$0")" || exit 1
mkdir -p build evidence replay
command -v verus >/dev/null || { echo "verus not on PATH"; exit 1; }
python3 -c "import sys; sys.path.insert(0,'.'); import props, vf.cli" || exit 1
# warm up verus (first run loads vstd; later runs are 1-3 s)
printf 'use vstd::prelude::*;\nverus!{ fn warm(x: u8) -> (r: u8) ensures r == x { x } }\nfn main(){}\n' > build/_warm.rs
verus build/_warm.rs >/dev/null 2>&1 || { echo "verus warm-up failed"; exit 1; }
echo "setup ok"
